"""E2: kernel partial evaluator.  AST of a hiten kernel -> sympy terms.

Static arguments (sizes, literal tables, loop bounds) are evaluated; dynamic
arguments stay symbols.  Only loops with static trip counts are unrolled.  A
data-dependent `if` is if-converted (value-level ITE / Piecewise), never explored
as separate paths by a solver.  Anything outside the fragment raises
`OutsideFragment` (mapped to ANALYSIS-ERROR by callers) instead of guessing.

hiten is never imported: functions are interpreted from their syntax trees.
"""
from __future__ import annotations

import ast
import math
from fractions import Fraction

import numpy as np
import sympy as sp

from .core import AnalysisError
from . import repoindex as ri


class OutsideFragment(AnalysisError):
    pass


class KpeRaise(Exception):
    """The interpreted code reached a `raise` on a statically-taken path."""

    def __init__(self, text):
        super().__init__(text)
        self.text = text


class RuntimeNameError(Exception):
    """A name that is bound only under `if TYPE_CHECKING:` (or not at all) is used at run time."""

    def __init__(self, name, modname):
        super().__init__(f"name '{name}' is not bound at run time in {modname} (imported only under TYPE_CHECKING)")
        self.name = name
        self.modname = modname


class _Return(Exception):
    def __init__(self, value):
        self.value = value


class _Break(Exception):
    pass


class _Continue(Exception):
    pass


# ----------------------------------------------------------------------------- values
class Opaque:
    """A value the evaluator does not look into (logger, numba module, ...)."""

    def __init__(self, name):
        self.name = name

    def __repr__(self):
        return f"<opaque {self.name}>"


class ModuleRef:
    def __init__(self, name):
        self.name = name  # 'np', 'math', 'numba', 'hiten....'

    def __repr__(self):
        return f"<module {self.name}>"


class FuncRef:
    def __init__(self, mod, node, closure=None, bound_self=None, qual=None, owner=None):
        self.mod = mod
        self.node = node
        self.closure = closure
        self.bound_self = bound_self
        self.qual = qual or getattr(node, "name", "<lambda>")
        self.owner = owner  # (Module, ClassDef) when looked up through a class

    def __repr__(self):
        return f"<func {self.mod.name if self.mod else '?'}::{self.qual}>"

    def __call__(self, *args, **kwargs):
        """Allows python stubs (used as abstractions in rules) to call back into interpreted code."""
        if not _CURRENT:
            raise OutsideFragment("interpreted function called outside an interpreter")
        return _CURRENT[-1].apply(self, list(args), dict(kwargs))


_CURRENT = []


class ClassRef:
    def __init__(self, mod, node):
        self.mod = mod
        self.node = node

    def __repr__(self):
        return f"<class {self.node.name}>"


class SymObj:
    """An instance of a repo class with chosen attribute overrides (symbols or values)."""

    def __init__(self, cls: ClassRef | None, attrs=None, name="obj"):
        self.cls = cls
        self.attrs = dict(attrs or {})
        self.name = name

    def __repr__(self):
        return f"<symobj {self.name}:{self.cls.node.name if self.cls else '?'}>"


class KModel:
    """Marker base: python-side model objects the evaluator may index / call methods on directly."""


class SuperProxy:
    def __init__(self, obj, owner):
        self.obj = obj
        self.owner = owner


class UFunc:
    """Uninterpreted callable: f(args) -> vector/scalar of sympy Function applications."""

    def __init__(self, name, out_len=None):
        self.name = name
        self.out_len = out_len  # None -> scalar


def is_num(v):
    return isinstance(v, (int, Fraction)) and not isinstance(v, bool) or (isinstance(v, sp.Basic) and v.is_number)


def is_static_int(v):
    if isinstance(v, bool):
        return False
    if isinstance(v, (int, np.integer)):
        return True
    return isinstance(v, sp.Integer)


def as_int(v, what="index"):
    if isinstance(v, bool):
        return int(v)
    if isinstance(v, (int, np.integer)):
        return int(v)
    if isinstance(v, sp.Integer):
        return int(v)
    if isinstance(v, sp.Rational) and v.q == 1:
        return int(v.p)
    raise OutsideFragment(f"{what} is not a static integer: {v!r}")


def S(v):
    """Lift a Python number to sympy exactly."""
    if isinstance(v, sp.Basic):
        return v
    if isinstance(v, bool):
        return sp.true if v else sp.false
    if isinstance(v, (int, np.integer)):
        return sp.Integer(int(v))
    if isinstance(v, Fraction):
        return sp.Rational(v.numerator, v.denominator)
    if isinstance(v, float):
        if v != v or v in (float("inf"), float("-inf")):
            return sp.oo if v > 0 else (-sp.oo if v < 0 else sp.nan)
        return sp.Rational(repr(v))
    if isinstance(v, complex):
        return S(v.real) + sp.I * S(v.imag)
    raise OutsideFragment(f"cannot lift {type(v).__name__} to a term")


def obj_array(shape, fill=0):
    a = np.empty(shape, dtype=object)
    a.fill(sp.Integer(fill))
    return a


def to_obj_array(v):
    if isinstance(v, np.ndarray):
        if v.dtype == object:
            return v
        out = np.empty(v.shape, dtype=object)
        for idx in np.ndindex(v.shape):
            out[idx] = S(v[idx].item())
        return out
    if isinstance(v, (list, tuple)):
        elems = [to_obj_array(e) if isinstance(e, (list, tuple, np.ndarray)) else S(e) for e in v]
        if elems and isinstance(elems[0], np.ndarray):
            out = np.empty((len(elems),) + elems[0].shape, dtype=object)
            for i, e in enumerate(elems):
                out[i] = e
            return out
        out = np.empty((len(elems),), dtype=object)
        for i, e in enumerate(elems):
            out[i] = e
        return out
    out = np.empty((), dtype=object)
    out[()] = S(v)
    return out


def symvec(prefix, n, **assumptions):
    a = np.empty((n,), dtype=object)
    for i in range(n):
        a[i] = sp.Symbol(f"{prefix}{i}", **assumptions)
    return a


def vmap(f, a):
    if isinstance(a, np.ndarray):
        out = np.empty(a.shape, dtype=object)
        for idx in np.ndindex(a.shape):
            out[idx] = f(a[idx])
        return out
    return f(S(a))


# ----------------------------------------------------------------------------- environment
class Env:
    def __init__(self, mod, parent=None):
        self.mod = mod
        self.vars = {}
        self.parent = parent

    def lookup(self, name):
        e = self
        while e is not None:
            if name in e.vars:
                return e.vars[name]
            e = e.parent
        raise KeyError(name)

    def fork(self):
        e = Env(self.mod, self.parent)
        e.vars = dict(self.vars)
        return e


_BUILTIN_NAMES = {"hash", "bytes", "get_num_threads", "get_thread_id", "range", "len", "abs", "float", "int", "max", "min", "sum", "tuple", "list", "enumerate",
                  "zip", "isinstance", "complex", "bool", "round", "pow", "reversed", "sorted", "print", "dict",
                  "str", "ValueError", "RuntimeError", "TypeError", "NotImplementedError", "Exception",
                  "ZeroDivisionError", "KeyError", "IndexError", "getattr", "hasattr", "callable", "set", "any",
                  "all", "divmod", "slice", "type", "id", "map", "super", "object", "property", "staticmethod"}


class Interp:
    """One interpreter instance = one analysis context (call depth, overrides, hooks)."""

    def __init__(self, overrides=None, decide=None, max_depth=12, opaque_calls=None, max_paths=64, np_overrides=None):
        # overrides: {(modname, qualname) | qualname: python callable(interp, args, kwargs) -> value}
        self.overrides = dict(overrides or {})
        self.decide = decide          # callable(cond_expr) -> True/False/None for dynamic conditions
        self.max_depth = max_depth
        self.depth = 0
        self.opaque_calls = set(opaque_calls or ())
        self.max_paths = max_paths
        self.trace = []               # (kind, info) notes for evidence
        self.stmt_count = 0
        self.ite_count = 0
        self.env_log = {}             # qualname -> last Env of that function (closure extraction)
        self.np_overrides = dict(np_overrides or {})
        self._local_modconst = {}

    # ------------------------------------------------------------------ entry points
    def call_function(self, modname, qualname, args=(), kwargs=None):
        mod, node = ri.find_def(modname, qualname)
        if not isinstance(node, (ast.FunctionDef, ast.Lambda)):
            raise OutsideFragment(f"{modname}::{qualname} is not a function")
        return self.apply(FuncRef(mod, node, qual=qualname), list(args), dict(kwargs or {}))

    def module_value(self, modname, name):
        mod = ri.need_module(modname)
        return self.module_lookup(mod, name)

    # ------------------------------------------------------------------ name resolution
    def module_lookup(self, mod, name):
        if name in mod.type_only and name not in mod.defs and name not in mod.assigns:
            raise RuntimeNameError(name, mod.name)
        r = ri.resolve(mod, name)
        if r is None:
            if name in _BUILTIN_NAMES:
                return ("builtin", name)
            if name in ("True", "False", "None"):
                return {"True": True, "False": False, "None": None}[name]
            raise OutsideFragment(f"unresolved name {name} in {mod.name}")
        kind = r[0]
        if kind == "def":
            _, m, node = r
            if isinstance(node, ast.ClassDef):
                return ClassRef(m, node)
            return FuncRef(m, node)
        if kind == "assign":
            _, m, node, name = r
            key = (m.name, name)
            if key in self.overrides:
                return self.overrides[key]
            cache = _MODCONST_CACHE if not self.overrides else self._local_modconst
            if key in cache:
                return cache[key]
            env = Env(m)
            # module-level constants may be built by several statements (A = zeros; A[0,1] = ...)
            try:
                val = self._eval_module_const(m, name)
            except OutsideFragment as exc:
                val = Opaque(f"{m.name}.{name} ({exc})")
            cache[key] = val
            return val
        if kind == "module":
            return ModuleRef(r[1])
        if kind == "external":
            dotted = r[1]
            if name in self.overrides and callable(self.overrides[name]):
                return ("override", name)
            return self.external(dotted)
        raise OutsideFragment(f"cannot resolve {name}")

    def _eval_module_const(self, m, name):
        """Evaluate a module-level name by executing, in order, the module-level statements that
        mention it as a target (plain assignment or subscript store)."""
        env = Env(m)
        env.vars["__module_const__"] = True
        found = False
        for st in m.tree.body:
            tgt_names = set()
            if isinstance(st, (ast.Assign, ast.AugAssign, ast.AnnAssign)):
                tgts = st.targets if isinstance(st, ast.Assign) else [st.target]
                for t in tgts:
                    for n in ast.walk(t):
                        if isinstance(n, ast.Name) and isinstance(n.ctx, ast.Store):
                            tgt_names.add(n.id)
                        elif isinstance(n, ast.Subscript):
                            b = n.value
                            while isinstance(b, (ast.Subscript, ast.Attribute)):
                                b = b.value
                            if isinstance(b, ast.Name):
                                tgt_names.add(b.id)
            if name in tgt_names:
                self.exec_stmt(st, env)
                found = True
        if not found or name not in env.vars:
            raise OutsideFragment(f"module constant {m.name}.{name} could not be evaluated")
        return env.vars[name]

    def external(self, dotted):
        head = dotted.split(".")[0]
        if dotted in ("numpy",):
            return ModuleRef("np")
        if dotted == "math":
            return ModuleRef("math")
        if dotted == "cmath":
            return ModuleRef("math")
        if head == "numba":
            tail = dotted.split(".")[-1]
            if dotted == "numba":
                return ModuleRef("numba")
            if tail in ("prange",):
                return ("builtin", "range")
            if tail == "List":
                return ("builtin", "list")
            if tail == "Dict":
                return ("builtin", "dict")
            if tail in ("get_num_threads", "get_thread_id"):
                return ("builtin", tail)
            if tail in ("njit", "jit"):
                return Opaque("numba.njit")
            return Opaque(dotted)
        if dotted.startswith("numpy."):
            return ("np", dotted[len("numpy."):])
        if dotted.startswith("math."):
            return ("math", dotted[len("math."):])
        if dotted.startswith("typing") or dotted.startswith("dataclasses") or dotted.startswith("abc"):
            return Opaque(dotted)
        return Opaque(dotted)

    def lookup(self, name, env):
        try:
            return env.lookup(name)
        except KeyError:
            pass
        return self.module_lookup(env.mod, name)

    # ------------------------------------------------------------------ function application
    def apply(self, fn, args, kwargs):
        if isinstance(fn, FuncRef):
            key = (fn.mod.name if fn.mod else None, fn.qual)
            for k in (key, fn.qual, getattr(fn.node, "name", None)):
                if k in self.overrides and callable(self.overrides[k]):
                    return self.overrides[k](self, args, kwargs)
            return self.apply_funcref(fn, args, kwargs)
        if isinstance(fn, UFunc):
            return self.apply_ufunc(fn, args)
        if isinstance(fn, tuple) and fn and fn[0] == "override":
            return self.overrides[fn[1]](self, args, kwargs)
        if isinstance(fn, tuple) and fn and fn[0] == "builtin":
            return self.builtin(fn[1], args, kwargs)
        if isinstance(fn, tuple) and fn and fn[0] == "np":
            return self.np_call(fn[1], args, kwargs)
        if isinstance(fn, tuple) and fn and fn[0] == "math":
            return self.math_call(fn[1], args, kwargs)
        if isinstance(fn, tuple) and fn and fn[0] == "method":
            return self.method_call(fn[1], fn[2], args, kwargs)
        if isinstance(fn, ClassRef):
            return self.instantiate(fn, args, kwargs)
        if isinstance(fn, Opaque):
            if fn.name.startswith("numba.njit") or fn.name.startswith("numba.jit") or fn.name.endswith(".njit") or fn.name.endswith(".jit"):
                # decorator: njit(f) -> f ; njit(**kw) -> njit
                if args and isinstance(args[0], FuncRef):
                    return args[0]
                return Opaque("numba.njit")
            return Opaque(fn.name + "()")
        if callable(fn):
            return fn(*args, **kwargs)
        raise OutsideFragment(f"call of non-callable {fn!r}")

    def apply_ufunc(self, fn, args):
        flat = []
        for a in args:
            if isinstance(a, np.ndarray):
                flat.extend(S(x) for x in a.ravel())
            elif isinstance(a, (list, tuple)):
                flat.extend(S(x) for x in a)
            elif isinstance(a, (Opaque, FuncRef, SymObj, UFunc)) or a is None:
                continue
            else:
                flat.append(S(a))
        if fn.out_len is None:
            return sp.Function(fn.name)(*flat)
        out = np.empty((fn.out_len,), dtype=object)
        for i in range(fn.out_len):
            out[i] = sp.Function(f"{fn.name}_{i}")(*flat)
        return out

    def instantiate(self, cref, args, kwargs):
        name = cref.node.name
        if name in self.overrides and callable(self.overrides[name]):
            return self.overrides[name](self, args, kwargs)
        new = ri.class_member(cref.mod, cref.node, "__new__")
        if new is not None and isinstance(new[2], ast.FunctionDef):
            return self.apply_funcref(FuncRef(new[0], new[2], bound_self=cref, qual=f"{new[1].name}.__new__", owner=(new[0], new[1])),
                                      list(args), kwargs)
        obj = SymObj(cref, {}, name=name)
        init = ri.class_member(cref.mod, cref.node, "__init__")
        if init is not None and isinstance(init[2], ast.FunctionDef):
            self.apply_funcref(FuncRef(init[0], init[2], bound_self=obj, qual=f"{init[1].name}.__init__", owner=(init[0], init[1])),
                               list(args), kwargs)
            return obj
        # dataclass / NamedTuple style: annotated fields in definition order (bases first)
        fields = []
        for m, c in reversed(ri.mro(cref.mod, cref.node)):
            for st in c.body:
                if isinstance(st, ast.AnnAssign) and isinstance(st.target, ast.Name):
                    ann = ast.unparse(st.annotation)
                    if ann.startswith("ClassVar"):
                        continue
                    fields = [f for f in fields if f[0] != st.target.id] + [(st.target.id, st.value, m)]
        kwargs = dict(kwargs)
        for i, (fname, default, m) in enumerate(fields):
            if i < len(args):
                obj.attrs[fname] = args[i]
            elif fname in kwargs:
                obj.attrs[fname] = kwargs.pop(fname)
            elif default is not None:
                try:
                    obj.attrs[fname] = self.eval(default, Env(m))
                except OutsideFragment:
                    obj.attrs[fname] = Opaque(f"default {fname}")
        if kwargs and fields:
            raise OutsideFragment(f"unexpected fields {sorted(kwargs)} for {name}")
        return obj

    def apply_funcref(self, fn, args, kwargs):
        node = fn.node
        if self.depth >= self.max_depth:
            raise OutsideFragment(f"call depth bound {self.max_depth} exceeded at {fn.qual}")
        env = Env(fn.mod, fn.closure)
        if fn.owner is not None:
            env.vars["__class__"] = fn.owner
        a = node.args
        params = [p.arg for p in a.posonlyargs + a.args]
        args = list(args)
        if fn.bound_self is not None:
            args = [fn.bound_self] + args
        defaults = a.defaults
        ndef = len(defaults)
        npar = len(params)
        for i, p in enumerate(params):
            if i < len(args):
                env.vars[p] = args[i]
            elif p in kwargs:
                env.vars[p] = kwargs.pop(p)
            else:
                di = i - (npar - ndef)
                if di < 0:
                    raise OutsideFragment(f"missing argument {p} for {fn.qual}")
                env.vars[p] = self.eval(defaults[di], Env(fn.mod, fn.closure))
        extra = args[npar:]
        if a.vararg is not None:
            env.vars[a.vararg.arg] = tuple(extra)
        elif extra:
            raise OutsideFragment(f"too many positional arguments for {fn.qual}")
        for p, d in zip(a.kwonlyargs, a.kw_defaults):
            if p.arg in kwargs:
                env.vars[p.arg] = kwargs.pop(p.arg)
            elif d is not None:
                env.vars[p.arg] = self.eval(d, Env(fn.mod, fn.closure))
            else:
                raise OutsideFragment(f"missing keyword-only argument {p.arg} for {fn.qual}")
        if a.kwarg is not None:
            env.vars[a.kwarg.arg] = dict(kwargs)
        elif kwargs:
            raise OutsideFragment(f"unexpected keyword arguments {sorted(kwargs)} for {fn.qual}")
        self.depth += 1
        self.env_log[fn.qual] = env
        _CURRENT.append(self)
        try:
            if isinstance(node, ast.Lambda):
                return self.eval(node.body, env)
            return self.exec_function_body(node.body, env)
        finally:
            _CURRENT.pop()
            self.depth -= 1

    def exec_function_body(self, body, env):
        try:
            self.exec_block(body, env)
        except _Return as r:
            return r.value
        return None

    # ------------------------------------------------------------------ statements
    def exec_block(self, stmts, env):
        for i, st in enumerate(stmts):
            if isinstance(st, ast.If):
                done = self.exec_if(st, stmts[i + 1:], env)
                if done:
                    return
            else:
                self.exec_stmt(st, env)

    def exec_if(self, st, rest, env):
        """Returns True if `rest` has already been executed (dynamic if-conversion)."""
        cond = self.eval(st.test, env)
        tv = self.truth(cond)
        if tv is True:
            self.exec_block(st.body, env)
            return False
        if tv is False:
            self.exec_block(st.orelse, env)
            return False
        # dynamic condition --------------------------------------------------
        cexpr = cond
        # 1. effect-free / equal-effect branches: run both on forks and compare
        has_jump = any(isinstance(n, (ast.Return, ast.Break, ast.Continue)) for b in (st.body, st.orelse)
                       for s in b for n in ast.walk(s))
        if not has_jump:
            e1, e2 = self.fork_env(env), self.fork_env(env)
            r1 = self._try_block(st.body, e1)
            r2 = self._try_block(st.orelse, e2)
            if isinstance(r1, KpeRaise) and isinstance(r2, KpeRaise):
                raise r1
            if isinstance(r1, KpeRaise):
                # guard that raises: the continuing path assumes the condition false
                self.trace.append(("assume-false", sp.sstr(cexpr), r1.text))
                self.adopt(env, e2)
                return False
            if isinstance(r2, KpeRaise):
                self.trace.append(("assume-true", sp.sstr(cexpr), r2.text))
                self.adopt(env, e1)
                return False
            self.merge_envs(env, cexpr, e1, e2)
            return False
        # 2. branches with jumps: continuation-passing if-conversion
        self.ite_count += 1
        if self.ite_count > self.max_paths:
            raise OutsideFragment("too many data-dependent branches with early exits")
        e1, e2 = self.fork_env(env), self.fork_env(env)
        out1 = self._run_to_end(list(st.body) + list(rest), e1)
        out2 = self._run_to_end(list(st.orelse) + list(rest), e2)
        if isinstance(out1, KpeRaise) and isinstance(out2, KpeRaise):
            raise out1
        if isinstance(out1, KpeRaise):
            self.trace.append(("assume-false", sp.sstr(cexpr), out1.text))
            self.adopt(env, e2)
            return self._finish_cps(out2)
        if isinstance(out2, KpeRaise):
            self.trace.append(("assume-true", sp.sstr(cexpr), out2.text))
            self.adopt(env, e1)
            return self._finish_cps(out1)
        k1, v1 = out1
        k2, v2 = out2
        if k1 != k2:
            raise OutsideFragment("data-dependent branch: one arm returns/breaks and the other falls through")
        self.merge_envs(env, cexpr, e1, e2)
        if k1 == "return":
            raise _Return(self.ite(cexpr, v1, v2))
        if k1 == "break":
            raise OutsideFragment("data-dependent break")
        if k1 == "continue":
            raise OutsideFragment("data-dependent continue")
        return True

    def _finish_cps(self, out):
        k, v = out
        if k == "return":
            raise _Return(v)
        if k == "break":
            raise _Break()
        if k == "continue":
            raise _Continue()
        return True

    def _run_to_end(self, stmts, env):
        try:
            self.exec_block(stmts, env)
        except _Return as r:
            return ("return", r.value)
        except _Break:
            return ("break", None)
        except _Continue:
            return ("continue", None)
        except KpeRaise as k:
            return k
        return ("fall", None)

    def _try_block(self, stmts, env):
        try:
            self.exec_block(stmts, env)
        except KpeRaise as k:
            return k
        return None

    def fork_env(self, env):
        """Fork the chain of environments; arrays are copied so that in-place stores stay branch-local."""
        memo = {}

        def cp(v):
            if isinstance(v, np.ndarray):
                k = id(v)
                if k not in memo:
                    base = v.base
                    if base is not None and isinstance(base, np.ndarray):
                        # keep view relationship only if the base is itself reachable; else plain copy
                        memo[k] = v.copy()
                    else:
                        memo[k] = v.copy()
                return memo[k]
            if isinstance(v, list):
                return [cp(x) for x in v]
            return v

        def fork(e):
            if e is None:
                return None
            n = Env(e.mod, fork(e.parent))
            n.vars = {k: cp(v) for k, v in e.vars.items()}
            return n

        return fork(env)

    def adopt(self, env, src):
        e, s = env, src
        while e is not None and s is not None:
            for k, v in s.vars.items():
                old = e.vars.get(k)
                if isinstance(old, np.ndarray) and isinstance(v, np.ndarray) and old.shape == v.shape:
                    old[...] = v
                else:
                    e.vars[k] = v
            e, s = e.parent, s.parent

    def merge_envs(self, env, cond, e1, e2):
        e, a, b = env, e1, e2
        while e is not None:
            for k in set(a.vars) | set(b.vars):
                if k not in a.vars or k not in b.vars:
                    # defined on one arm only: keep it if defined (use would be a may-unbound otherwise)
                    v = a.vars.get(k, b.vars.get(k))
                    e.vars[k] = v
                    continue
                v1, v2 = a.vars[k], b.vars[k]
                merged = self.ite(cond, v1, v2)
                old = e.vars.get(k)
                if isinstance(old, np.ndarray) and isinstance(merged, np.ndarray) and old.shape == merged.shape:
                    old[...] = merged
                else:
                    e.vars[k] = merged
            e, a, b = e.parent, a.parent, b.parent

    def ite(self, cond, v1, v2):
        if v1 is v2:
            return v1
        if isinstance(v1, np.ndarray) and isinstance(v2, np.ndarray):
            if v1.shape != v2.shape:
                raise OutsideFragment("branches produce arrays of different shapes")
            out = np.empty(v1.shape, dtype=object)
            for idx in np.ndindex(v1.shape):
                out[idx] = self.ite(cond, v1[idx], v2[idx])
            return out
        if isinstance(v1, (tuple, list)) and isinstance(v2, (tuple, list)) and len(v1) == len(v2):
            return type(v1)(self.ite(cond, x, y) for x, y in zip(v1, v2))
        if isinstance(v1, (sp.Basic, int, Fraction, float)) and isinstance(v2, (sp.Basic, int, Fraction, float)) \
                and not isinstance(v1, bool) and not isinstance(v2, bool):
            s1, s2 = S(v1), S(v2)
            if s1 == s2:
                return v1
            # recognised idiom "zero-skip": `if a != 0: acc += a*X` -- the else-value is the then-value at a = 0
            z = _zero_skip_symbol(cond)
            if z is not None:
                try:
                    if sp.expand(s1.subs(z, 0) - s2) == 0:
                        return s1
                except Exception:  # noqa: BLE001
                    pass
            return sp.Piecewise((s1, cond), (s2, True))
        if isinstance(v1, bool) and isinstance(v2, bool):
            if v1 == v2:
                return v1
            return cond if v1 else sp.Not(cond)
        try:
            if v1 == v2:
                return v1
        except Exception:  # noqa: BLE001
            pass
        if isinstance(v1, (Opaque,)) or isinstance(v2, (Opaque,)):
            return Opaque("ite")
        if v1 is None or v2 is None:
            raise OutsideFragment("branches disagree on None")
        raise OutsideFragment(f"cannot merge branch values {type(v1).__name__}/{type(v2).__name__}")

    def truth(self, v):
        """True/False when static, None when data-dependent."""
        if isinstance(v, (bool, np.bool_)):
            return bool(v)
        if v is None:
            return False
        if isinstance(v, (int, str, tuple, list, dict, Fraction)):
            return bool(v)
        if isinstance(v, np.ndarray):
            if v.size == 1:
                return self.truth(v.ravel()[0])
            raise OutsideFragment("truth value of an array")
        if isinstance(v, (Opaque, FuncRef, ClassRef, SymObj, UFunc, ModuleRef)):
            return True if not isinstance(v, Opaque) else None
        if isinstance(v, sp.Basic):
            if v is sp.true:
                return True
            if v is sp.false:
                return False
            if v.is_number:
                return bool(v != 0)
            if self.decide is not None:
                q = v if _is_boolterm(v) else sp.Ne(v, 0)
                if q is sp.true:
                    return True
                if q is sp.false:
                    return False
                d = self.decide(q)
                if d is not None:
                    return d
            return None
        if isinstance(v, KModel) or (callable(v) and not isinstance(v, type)):
            return True      # model objects / python callables handed in by a rule
        raise OutsideFragment(f"truth of {type(v).__name__}")

    def exec_stmt(self, st, env):
        self.cur_stmt = (env, st)
        try:
            return self._exec_stmt(st, env)
        except OutsideFragment as exc:
            if not getattr(exc, "_located", False):
                exc._located = True
                exc.args = (f"{exc.args[0] if exc.args else ''} [at {env.mod.name if env.mod else '?'}:"
                            f"{getattr(st, 'lineno', '?')}: {ri.norm_stmt(st)[:100]}]",)
            raise

    def _exec_stmt(self, st, env):
        self.stmt_count += 1
        if self.stmt_count > 2_000_000:
            raise OutsideFragment("statement budget exhausted")
        if isinstance(st, ast.Assign):
            val = self.eval(st.value, env)
            for t in st.targets:
                self.assign(t, val, env)
        elif isinstance(st, ast.AnnAssign):
            if st.value is not None:
                self.assign(st.target, self.eval(st.value, env), env)
        elif isinstance(st, ast.AugAssign):
            cur = self.eval(_load(st.target), env)
            val = self.eval(st.value, env)
            if isinstance(cur, np.ndarray) and not isinstance(st.target, ast.Subscript) or (
                    isinstance(cur, np.ndarray) and isinstance(st.target, ast.Subscript)):
                # in-place on arrays keeps aliasing (views)
                res = self.binop(type(st.op), cur, val)
                if isinstance(res, np.ndarray) and res.shape == cur.shape:
                    cur[...] = res
                    if isinstance(st.target, ast.Subscript):
                        self.assign(st.target, cur, env)
                    return
                self.assign(st.target, res, env)
            else:
                self.assign(st.target, self.binop(type(st.op), cur, val), env)
        elif isinstance(st, ast.Expr):
            if isinstance(st.value, ast.Constant):
                return
            self.eval(st.value, env)
        elif isinstance(st, ast.Return):
            raise _Return(self.eval(st.value, env) if st.value is not None else None)
        elif isinstance(st, ast.If):
            self.exec_if(st, [], env)
        elif isinstance(st, ast.For):
            it = self.eval(st.iter, env)
            seq = self.iterate(it)
            broke = False
            for item in seq:
                self.assign(st.target, item, env)
                try:
                    self.exec_block(st.body, env)
                except _Break:
                    broke = True
                    break
                except _Continue:
                    continue
            if not broke:
                self.exec_block(st.orelse, env)
        elif isinstance(st, ast.While):
            n = 0
            while True:
                tv = self.truth(self.eval(st.test, env))
                if tv is None:
                    raise OutsideFragment("while loop with data-dependent condition")
                if not tv:
                    break
                n += 1
                if n > 100000:
                    raise OutsideFragment("while loop bound")
                try:
                    self.exec_block(st.body, env)
                except _Break:
                    break
                except _Continue:
                    continue
        elif isinstance(st, ast.Pass):
            return
        elif isinstance(st, (ast.FunctionDef,)):
            env.vars[st.name] = FuncRef(env.mod, st, closure=env, qual=st.name)
        elif isinstance(st, ast.ClassDef):
            env.vars[st.name] = ClassRef(env.mod, st)
        elif isinstance(st, ast.Raise):
            raise KpeRaise(ri.norm_stmt(st))
        elif isinstance(st, ast.Assert):
            return
        elif isinstance(st, ast.Try):
            try:
                self.exec_block(st.body, env)
            except KpeRaise as kexc:
                if st.handlers:
                    if st.handlers[0].name:
                        env.vars[st.handlers[0].name] = Opaque(f"exception({kexc.text})")
                    self.exec_block(st.handlers[0].body, env)
                else:
                    raise
            else:
                self.exec_block(st.orelse, env)
            self.exec_block(st.finalbody, env)
        elif isinstance(st, ast.With):
            for item in st.items:
                ctx = self.eval(item.context_expr, env)
                if item.optional_vars is not None:
                    self.assign(item.optional_vars, ctx, env)
            self.exec_block(st.body, env)
        elif isinstance(st, (ast.Import, ast.ImportFrom)):
            tmp = ast.Module(body=[st], type_ignores=[])
            m = env.mod
            if isinstance(st, ast.Import):
                for a in st.names:
                    bound = a.asname or a.name.split(".")[0]
                    tgt = a.name if a.asname else a.name.split(".")[0]
                    env.vars[bound] = ModuleRef(tgt) if tgt.split(".")[0] == ri.PKG else self.external(tgt)
            else:
                base = m._abs(st.level, st.module)
                for a in st.names:
                    bound = a.asname or a.name
                    if base.split(".")[0] == ri.PKG:
                        tm = ri.load_module(base)
                        if tm is not None and ri.resolve(tm, a.name) is not None:
                            env.vars[bound] = self.module_lookup(tm, a.name)
                        elif ri.load_module(f"{base}.{a.name}") is not None:
                            env.vars[bound] = ModuleRef(f"{base}.{a.name}")
                        else:
                            raise OutsideFragment(f"cannot import {a.name} from {base}")
                    else:
                        env.vars[bound] = self.external(f"{base}.{a.name}")
        elif isinstance(st, (ast.Global, ast.Nonlocal, ast.Delete)):
            return
        elif isinstance(st, ast.Break):
            raise _Break()
        elif isinstance(st, ast.Continue):
            raise _Continue()
        else:
            raise OutsideFragment(f"statement kind {type(st).__name__}")

    def iterate(self, it):
        if isinstance(it, range):
            return it
        if isinstance(it, (list, tuple)):
            return list(it)
        if isinstance(it, np.ndarray):
            return [it[i] for i in range(it.shape[0])]
        if isinstance(it, dict):
            return list(it.keys())
        if hasattr(it, "__iter__") and not isinstance(it, sp.Basic):
            return list(it)
        raise OutsideFragment(f"iteration over {type(it).__name__}")

    def assign(self, target, val, env):
        if isinstance(target, ast.Name):
            env.vars[target.id] = val
        elif isinstance(target, (ast.Tuple, ast.List)):
            items = self.iterate(val)
            star = [i for i, t in enumerate(target.elts) if isinstance(t, ast.Starred)]
            if star:
                k = star[0]
                after = len(target.elts) - k - 1
                if len(items) < k + after:
                    raise OutsideFragment("not enough values for starred unpacking")
                for t, v in zip(target.elts[:k], items[:k]):
                    self.assign(t, v, env)
                self.assign(target.elts[k].value, list(items[k:len(items) - after]), env)
                for t, v in zip(target.elts[k + 1:], items[len(items) - after:]):
                    self.assign(t, v, env)
                return
            if len(items) != len(target.elts):
                raise OutsideFragment(f"unpacking {len(items)} values into {len(target.elts)} targets")
            for t, v in zip(target.elts, items):
                self.assign(t, v, env)
        elif isinstance(target, ast.Subscript):
            if isinstance(target.value, ast.Attribute) and target.value.attr in ("real", "imag"):
                owner = self.eval(target.value.value, env)
                if isinstance(owner, np.ndarray):
                    # numpy's .real / .imag are views of a complex array: a store through them rewrites that part in place
                    idx = self.eval_index(target.slice, env)
                    part = target.value.attr
                    sub = owner[idx]
                    newv = val if isinstance(val, np.ndarray) else None

                    def mix(old, v):
                        old = S(old)
                        return (S(v) + sp.I * sp.im(old)) if part == "real" else (sp.re(old) + sp.I * S(v))

                    if isinstance(sub, np.ndarray):
                        flat_new = list(np.broadcast_to(newv, sub.shape).ravel()) if newv is not None else [val] * sub.size
                        out = obj_array(sub.shape, 0)
                        for pos, (o, v) in enumerate(zip(sub.ravel(), flat_new)):
                            out.ravel()[pos] = mix(o, v)
                        owner[idx] = out.reshape(sub.shape)
                    else:
                        owner[idx] = mix(sub, val)
                    return
            base = self.eval(target.value, env)
            if isinstance(base, dict):
                base[_hash(self.eval(target.slice, env))] = val
                return
            idx = self.eval_index(target.slice, env)
            if isinstance(base, np.ndarray):
                if isinstance(val, np.ndarray):
                    base[idx] = val
                elif isinstance(val, (list, tuple)):
                    base[idx] = to_obj_array(val)
                else:
                    sub = base[idx]
                    if isinstance(sub, np.ndarray):
                        sub[...] = S(val)
                    else:
                        base[idx] = S(val)
            elif isinstance(base, list):
                base[as_int(idx)] = val
            elif isinstance(base, dict):
                base[_hash(idx)] = val
            elif isinstance(base, KModel):
                base[idx] = val
            else:
                raise OutsideFragment(f"subscript store into {type(base).__name__}")
        elif isinstance(target, ast.Attribute):
            base = self.eval(target.value, env)
            if isinstance(base, SymObj):
                base.attrs[target.attr] = val
            elif isinstance(base, Opaque):
                return
            else:
                raise OutsideFragment(f"attribute store into {type(base).__name__}")
        else:
            raise OutsideFragment(f"assignment target {type(target).__name__}")

    # ------------------------------------------------------------------ expressions
    def eval_index(self, node, env):
        if isinstance(node, ast.Tuple):
            out = []
            for e in node.elts:
                v = self.eval_index(e, env)
                if isinstance(v, tuple) and not isinstance(e, ast.Tuple):
                    v = list(v)
                elif isinstance(e, ast.Tuple):
                    v = [as_int(x) for x in v]
                out.append(v)
            return tuple(out)
        if isinstance(node, ast.Slice):
            lo = None if node.lower is None else as_int(self.eval(node.lower, env), "slice bound")
            hi = None if node.upper is None else as_int(self.eval(node.upper, env), "slice bound")
            stp = None if node.step is None else as_int(self.eval(node.step, env), "slice step")
            return slice(lo, hi, stp)
        v = self.eval(node, env)
        if isinstance(v, (slice, str)) or v is None or v is Ellipsis:
            return v
        if isinstance(v, (list, np.ndarray)):
            if isinstance(v, np.ndarray) and v.dtype == object:
                if v.size and all(isinstance(x, (bool, np.bool_)) or x in (sp.true, sp.false) for x in v.ravel()):
                    return np.array([bool(x) for x in v.ravel()]).reshape(v.shape)
                return np.array([as_int(x) for x in v.ravel()], dtype=int).reshape(v.shape)
            if isinstance(v, list):
                return [as_int(x) for x in v]
            if isinstance(v, np.ndarray) and v.dtype.kind == "f":
                # arithmetic on an (empty) integer index array may have produced a float array: integral values index as integers
                if all(float(x).is_integer() for x in v.ravel()):
                    return v.astype(int)
            return v
        if isinstance(v, tuple):
            return tuple(x if (isinstance(x, slice) or x is None or x is Ellipsis) else
                         ([as_int(e) for e in x] if isinstance(x, (list, tuple)) else
                          (x if isinstance(x, np.ndarray) and x.dtype != object else
                           (np.array([as_int(e) for e in x.ravel()]).reshape(x.shape) if isinstance(x, np.ndarray) else as_int(x))))
                         for x in v)
        if is_static_int(v) or isinstance(v, sp.Rational):
            return as_int(v)
        return v

    def eval(self, node, env):
        m = getattr(self, "e_" + type(node).__name__, None)
        if m is None:
            raise OutsideFragment(f"expression kind {type(node).__name__}")
        return m(node, env)

    def e_Constant(self, node, env):
        v = node.value
        if isinstance(v, bool) or v is None or isinstance(v, (str, bytes)) or v is Ellipsis:
            return v
        if isinstance(v, int):
            return v
        if isinstance(v, float):
            cached = getattr(node, "_hv_val", None)
            if cached is not None:
                return cached
            seg = env.mod.segment(node) if (env.mod is not None and hasattr(node, "lineno")) else ""
            seg = (seg or "").replace("_", "")
            try:
                val = sp.Rational(Fraction(seg))
            except Exception:  # noqa: BLE001
                val = S(v)
            try:
                node._hv_val = val
            except Exception:  # noqa: BLE001
                pass
            return val
        if isinstance(v, complex):
            return S(v)
        raise OutsideFragment("constant kind")

    def e_Name(self, node, env):
        return self.lookup(node.id, env)

    def e_Tuple(self, node, env):
        out = []
        for e in node.elts:
            if isinstance(e, ast.Starred):
                out.extend(self.iterate(self.eval(e.value, env)))
            else:
                out.append(self.eval(e, env))
        return tuple(out)

    def e_List(self, node, env):
        return list(self.e_Tuple(node, env))

    def e_Set(self, node, env):
        return set(_hash(x) for x in self.e_Tuple(node, env))

    def e_Dict(self, node, env):
        out = {}
        for k, v in zip(node.keys, node.values):
            if k is None:
                out.update(self.eval(v, env))
            else:
                out[_hash(self.eval(k, env))] = self.eval(v, env)
        return out

    def e_JoinedStr(self, node, env):
        # f-strings are evaluated when every piece is a plain str/int value without a format spec (cache keys, form names);
        # anything else (messages with data) stays an opaque text
        parts = []
        for v in node.values:
            if isinstance(v, ast.Constant) and isinstance(v.value, str):
                parts.append(v.value)
            elif isinstance(v, ast.FormattedValue) and v.format_spec is None and v.conversion == -1:
                try:
                    val = self.eval(v.value, env)
                except (OutsideFragment, KpeRaise, RuntimeNameError):
                    return "<fstring>"
                if isinstance(val, str):
                    parts.append(val)
                elif isinstance(val, int) and not isinstance(val, bool):
                    parts.append(str(val))
                else:
                    return "<fstring>"
            else:
                return "<fstring>"
        return "".join(parts)

    def e_Lambda(self, node, env):
        return FuncRef(env.mod, node, closure=env, qual="<lambda>")

    def e_IfExp(self, node, env):
        c = self.eval(node.test, env)
        tv = self.truth(c)
        if tv is True:
            return self.eval(node.body, env)
        if tv is False:
            return self.eval(node.orelse, env)
        return self.ite(c, self.eval(node.body, env), self.eval(node.orelse, env))

    def e_ListComp(self, node, env):
        return list(self._comp(node, env))

    def e_GeneratorExp(self, node, env):
        return list(self._comp(node, env))

    def e_DictComp(self, node, env):
        out = {}
        for e in self._comp_envs(node.generators, env):
            out[_hash(self.eval(node.key, e))] = self.eval(node.value, e)
        return out

    def _comp(self, node, env):
        for e in self._comp_envs(node.generators, env):
            yield self.eval(node.elt, e)

    def _comp_envs(self, gens, env):
        if not gens:
            yield env
            return
        g = gens[0]
        for item in self.iterate(self.eval(g.iter, env)):
            e = Env(env.mod, env)
            self.assign(g.target, item, e)
            ok = True
            for c in g.ifs:
                tv = self.truth(self.eval(c, e))
                if tv is None:
                    raise OutsideFragment("data-dependent comprehension filter")
                if not tv:
                    ok = False
                    break
            if ok:
                yield from self._comp_envs(gens[1:], e)

    def e_UnaryOp(self, node, env):
        v = self.eval(node.operand, env)
        if isinstance(node.op, ast.USub):
            if isinstance(v, np.ndarray):
                return vmap(lambda x: -x, v)
            if isinstance(v, int) and not isinstance(v, bool):
                return -v
            return -S(v)
        if isinstance(node.op, ast.UAdd):
            return v
        if isinstance(node.op, ast.Not):
            tv = self.truth(v)
            if tv is None:
                return sp.Not(v)
            return not tv
        if isinstance(node.op, ast.Invert):
            if isinstance(v, np.ndarray) and v.dtype == bool:
                return ~v
            if isinstance(v, np.ndarray):
                def inv(x):
                    tv = self.truth(x)
                    return (not tv) if tv is not None else sp.Not(x)
                out = np.empty(v.shape, dtype=object)
                for idx in np.ndindex(v.shape):
                    out[idx] = inv(v[idx])
                return out
            if _boolish(v):
                tv = self.truth(v)
                return (not tv) if tv is not None else sp.Not(v)
            return ~as_int(v)
        raise OutsideFragment("unary op")

    def e_BoolOp(self, node, env):
        is_and = isinstance(node.op, ast.And)
        dyn = []
        last = None
        for e in node.values:
            v = self.eval(e, env)
            tv = self.truth(v)
            last = v
            if tv is None:
                dyn.append(v if isinstance(v, sp.Basic) else sp.Symbol("opaque_cond"))
                continue
            if is_and and not tv:
                return v if not dyn else False
            if (not is_and) and tv:
                return v if not dyn else True
        if not dyn:
            return last
        # undetermined operands that are terms but not Boolean terms (an opaque predicate such as allclose(...) of symbolic data) enter as "term != 0"
        dyn = [d if _is_boolterm(d) else sp.Ne(d, 0) for d in dyn]
        return sp.And(*dyn) if is_and else sp.Or(*dyn)

    def e_Compare(self, node, env):
        left = self.eval(node.left, env)
        result = True
        for op, rn in zip(node.ops, node.comparators):
            right = self.eval(rn, env)
            r = self.compare(op, left, right)
            if r is False:
                return False
            if r is not True:
                result = r if result is True else sp.And(result, r)
            left = right
        return result

    def compare(self, op, a, b):
        if isinstance(op, (ast.Is, ast.IsNot)):
            same = (a is b) or (a is None and b is None)
            if isinstance(a, (bool, int, str)) and isinstance(b, (bool, int, str)) and type(a) is type(b):
                same = a == b
            return same if isinstance(op, ast.Is) else not same
        if isinstance(op, (ast.In, ast.NotIn)):
            if isinstance(b, (list, tuple, set, dict, str)):
                try:
                    r = _hash(a) in b if not isinstance(b, str) else a in b
                except TypeError:
                    r = any(a == x for x in b)
                return r if isinstance(op, ast.In) else not r
            raise OutsideFragment("membership test on non-static container")
        if isinstance(a, str) or isinstance(b, str) or a is None or b is None:
            r = (a == b)
            if isinstance(op, ast.Eq):
                return r
            if isinstance(op, ast.NotEq):
                return not r
            raise OutsideFragment("ordering on str/None")
        if isinstance(a, np.ndarray) or isinstance(b, np.ndarray):
            A = a if isinstance(a, np.ndarray) else None
            B = b if isinstance(b, np.ndarray) else None
            if A is not None and B is not None:
                A, B = np.broadcast_arrays(A, B)
                out = np.empty(A.shape, dtype=object)
                for idx in np.ndindex(A.shape):
                    out[idx] = self.compare(op, A[idx], B[idx])
                return out
            if A is not None:
                out = np.empty(A.shape, dtype=object)
                for idx in np.ndindex(A.shape):
                    out[idx] = self.compare(op, A[idx], b)
                return out
            out = np.empty(B.shape, dtype=object)
            for idx in np.ndindex(B.shape):
                out[idx] = self.compare(op, a, B[idx])
            return out
        if isinstance(a, (tuple, list)) and isinstance(b, (tuple, list)):
            if isinstance(op, ast.Eq):
                return len(a) == len(b) and all(self.compare(op, x, y) is True for x, y in zip(a, b))
            if isinstance(op, ast.NotEq):
                return not (len(a) == len(b) and all(self.compare(ast.Eq(), x, y) is True for x, y in zip(a, b)))
        if isinstance(a, (Opaque, SymObj, FuncRef, ClassRef)) or isinstance(b, (Opaque, SymObj, FuncRef, ClassRef)):
            if isinstance(op, ast.Eq):
                return a is b
            if isinstance(op, ast.NotEq):
                return a is not b
            raise OutsideFragment("ordering on objects")
        sa, sb = S(a), S(b)
        rel = {ast.Lt: sp.Lt, ast.LtE: sp.Le, ast.Gt: sp.Gt, ast.GtE: sp.Ge, ast.Eq: sp.Eq, ast.NotEq: sp.Ne}[type(op)]
        try:
            r = rel(sa, sb)
        except TypeError:
            # complex ordering etc.
            raise OutsideFragment("relational on non-real terms")
        if r is sp.true:
            return True
        if r is sp.false:
            return False
        return r

    def e_BinOp(self, node, env):
        return self.binop(type(node.op), self.eval(node.left, env), self.eval(node.right, env))

    def binop(self, op, a, b):
        if op is ast.MatMult:
            return self.matmul(a, b)
        if isinstance(a, str) or isinstance(b, str):
            if op is ast.Add and isinstance(a, str) and isinstance(b, str):
                return a + b
            if op is ast.Mod:
                return "<fmt>"
            raise OutsideFragment("string arithmetic")
        if isinstance(a, (list, tuple)) and isinstance(b, (list, tuple)) and op is ast.Add:
            return type(a)(list(a) + list(b))
        if isinstance(a, (list, tuple)) and is_static_int(b) and op is ast.Mult:
            return type(a)(list(a) * as_int(b))
        if isinstance(a, (list, tuple)) and isinstance(b, np.ndarray):
            a = to_obj_array(a)
        if isinstance(b, (list, tuple)) and isinstance(a, np.ndarray):
            b = to_obj_array(b)
        if isinstance(a, np.ndarray) or isinstance(b, np.ndarray):
            A = a if isinstance(a, np.ndarray) else S(a)
            B = b if isinstance(b, np.ndarray) else S(b)
            if isinstance(A, np.ndarray) and isinstance(B, np.ndarray):
                A, B = np.broadcast_arrays(A, B)
                out = np.empty(A.shape, dtype=object)
                for idx in np.ndindex(A.shape):
                    out[idx] = self.scalar_binop(op, A[idx], B[idx])
                return out
            if isinstance(A, np.ndarray):
                return vmap(lambda x: self.scalar_binop(op, x, B), A)
            return vmap(lambda y: self.scalar_binop(op, A, y), B)
        return self.scalar_binop(op, a, b)

    def scalar_binop(self, op, a, b):
        ints = is_static_int(a) and is_static_int(b) and not isinstance(a, sp.Basic) and not isinstance(b, sp.Basic)
        if isinstance(a, (Opaque,)) or isinstance(b, (Opaque,)):
            raise OutsideFragment(f"arithmetic on opaque value {a!r} / {b!r}")
        if ints:
            a, b = int(a), int(b)
            if op is ast.Add:
                return a + b
            if op is ast.Sub:
                return a - b
            if op is ast.Mult:
                return a * b
            if op is ast.FloorDiv:
                return a // b
            if op is ast.Mod:
                return a % b
            if op is ast.Pow:
                return a ** b if b >= 0 else sp.Rational(1, a ** (-b))
            if op is ast.Div:
                return sp.Rational(a, b)
            if op is ast.LShift:
                return a << b
            if op is ast.RShift:
                return a >> b
            if op is ast.BitAnd:
                return a & b
            if op is ast.BitOr:
                return a | b
            if op is ast.BitXor:
                return a ^ b
        if op in (ast.BitAnd, ast.BitOr) and (_boolish(a) and _boolish(b)):
            return self._logic(sp.And if op is ast.BitAnd else sp.Or, a, b)
        sa, sb = S(a), S(b)
        if _is_boolterm(sa) or _is_boolterm(sb):
            if op is ast.BitAnd:
                return sp.And(sa, sb)
            if op is ast.BitOr:
                return sp.Or(sa, sb)
            raise OutsideFragment("arithmetic on a boolean term")
        if op is ast.Add:
            return sa + sb
        if op is ast.Sub:
            return sa - sb
        if op is ast.Mult:
            return sa * sb
        if op is ast.Div:
            if sb == 0:
                raise OutsideFragment("division by literal zero")
            return sa / sb
        if op is ast.Pow:
            return sp.Pow(sa, sb)
        if op is ast.FloorDiv:
            if sa.is_number and sb.is_number:
                return as_int(sp.floor(sa / sb)) if (sa.is_Integer and sb.is_Integer) else sp.floor(sa / sb)
            return sp.floor(sa / sb)
        if op is ast.Mod:
            if sa.is_number and sb.is_number:
                return sa - sb * sp.floor(sa / sb)
            return sp.Mod(sa, sb)
        if op in (ast.LShift, ast.RShift, ast.BitAnd, ast.BitOr, ast.BitXor):
            if sa.is_Integer and sb.is_Integer:
                return self.scalar_binop(op, int(sa), int(sb))
            name = {ast.LShift: "shl", ast.RShift: "shr", ast.BitAnd: "band", ast.BitOr: "bor", ast.BitXor: "bxor"}[op]
            return sp.Function(name)(sa, sb)
        raise OutsideFragment(f"binary operator {op.__name__}")

    def _logic(self, f, a, b):
        ta, tb = self.truth(a), self.truth(b)
        if ta is not None and tb is not None:
            return bool(f(ta, tb))
        la = (sp.true if ta else sp.false) if ta is not None else S(a)
        lb = (sp.true if tb else sp.false) if tb is not None else S(b)
        return f(la, lb)

    def matmul(self, a, b):
        A, B = to_obj_array(a), to_obj_array(b)
        if A.ndim == 1 and B.ndim == 1:
            return sum((A[i] * B[i] for i in range(A.shape[0])), sp.Integer(0))
        if A.ndim == 2 and B.ndim == 1:
            out = np.empty((A.shape[0],), dtype=object)
            for i in range(A.shape[0]):
                out[i] = sum((A[i, k] * B[k] for k in range(A.shape[1])), sp.Integer(0))
            return out
        if A.ndim == 1 and B.ndim == 2:
            out = np.empty((B.shape[1],), dtype=object)
            for j in range(B.shape[1]):
                out[j] = sum((A[k] * B[k, j] for k in range(B.shape[0])), sp.Integer(0))
            return out
        if A.ndim == 2 and B.ndim == 2:
            if A.shape[1] != B.shape[0]:
                raise OutsideFragment("matmul shape mismatch")
            out = np.empty((A.shape[0], B.shape[1]), dtype=object)
            for i in range(A.shape[0]):
                for j in range(B.shape[1]):
                    out[i, j] = sum((A[i, k] * B[k, j] for k in range(A.shape[1])), sp.Integer(0))
            return out
        raise OutsideFragment("matmul rank")

    def e_Subscript(self, node, env):
        base = self.eval(node.value, env)
        if isinstance(base, dict):
            k = _hash(self.eval(node.slice, env))
            if k not in base:
                raise OutsideFragment(f"dict key {k!r} missing")
            return base[k]
        idx = self.eval_index(node.slice, env)
        if isinstance(base, np.ndarray):
            try:
                return base[idx]
            except (IndexError, TypeError) as exc:
                raise OutsideFragment(f"array index {idx!r}: {exc}")
        if isinstance(base, (list, tuple, str)):
            if isinstance(idx, slice):
                return base[idx]
            try:
                return base[as_int(idx)]
            except IndexError as exc:
                raise OutsideFragment(f"index {idx!r} out of range: {exc}")
        if isinstance(base, dict):
            k = _hash(idx)
            if k not in base:
                raise OutsideFragment(f"dict key {idx!r} missing")
            return base[k]
        if isinstance(base, KModel):
            return base[idx]
        if isinstance(base, Opaque):
            return Opaque(base.name + "[]")
        if isinstance(base, tuple) and base and base[0] in ("np", "builtin") and isinstance(base[1], str):
            return Opaque(f"{base[1]}[]")
        if isinstance(base, sp.Basic) and isinstance(base, sp.IndexedBase):
            return base[idx]
        if isinstance(base, ClassRef) and isinstance(idx, str):
            # Enum lookup by member name: SynodicState["X"]
            hit = ri.class_member(base.mod, base.node, idx)
            if hit is not None and isinstance(hit[2], (ast.Assign, ast.AnnAssign)):
                return self.getattr(base, idx)
            raise KpeRaise(f"KeyError: {idx!r} is not a member of {base.node.name}")
        raise OutsideFragment(f"subscript of {type(base).__name__}")

    def e_Attribute(self, node, env):
        base = self.eval(node.value, env)
        return self.getattr(base, node.attr)

    def getattr(self, base, attr):
        if isinstance(base, tuple) and len(base) == 2 and base[0] == "builtin":
            if base[1] == "list" and attr == "empty_list":
                return lambda *a, **k: []
            if base[1] == "dict" and attr == "empty":
                return lambda *a, **k: {}
            if base[1] == "object" and attr == "__setattr__":
                # object.__setattr__(self, name, value): the frozen-dataclass idiom
                def _set(obj, name, value):
                    if not isinstance(obj, SymObj):
                        raise OutsideFragment("object.__setattr__ on a non-instance")
                    obj.attrs[name] = value
                    return None
                return _set
        if isinstance(base, ModuleRef):
            if base.name == "np":
                if attr in ("linalg", "random", "testing"):
                    return ModuleRef("np." + attr)
                if attr == "pi":
                    return sp.pi
                if attr == "e":
                    return sp.E
                if attr == "inf":
                    return sp.oo
                if attr == "nan":
                    return sp.nan
                if attr == "newaxis":
                    return None
                return ("np", attr)
            if base.name.startswith("np."):
                return ("np", base.name[3:] + "." + attr)
            if base.name == "math":
                if attr == "pi":
                    return sp.pi
                if attr == "e":
                    return sp.E
                if attr == "inf":
                    return sp.oo
                return ("math", attr)
            if base.name == "numba":
                if attr == "prange":
                    return ("builtin", "range")
                if attr in ("typed",):
                    return ModuleRef("numba.typed")
                return Opaque("numba." + attr)
            if base.name == "numba.typed":
                if attr == "List":
                    return ("builtin", "list")
                return Opaque("numba.typed." + attr)
            m = ri.load_module(base.name)
            if m is None:
                raise OutsideFragment(f"module {base.name} not found")
            if ri.resolve(m, attr) is not None:
                return self.module_lookup(m, attr)
            sub = ri.load_module(base.name + "." + attr)
            if sub is not None:
                return ModuleRef(base.name + "." + attr)
            raise OutsideFragment(f"{base.name}.{attr} unresolved")
        if isinstance(base, np.ndarray):
            if attr == "shape":
                return tuple(base.shape)
            if attr == "size":
                return int(base.size)
            if attr == "ndim":
                return int(base.ndim)
            if attr == "T":
                return base.T
            if attr == "real":
                return vmap(sp.re, base)
            if attr == "imag":
                return vmap(sp.im, base)
            if attr == "dtype":
                return Opaque("dtype")
            if attr == "flat":
                return base.ravel()
            return ("method", base, attr)
        if isinstance(base, KModel):
            try:
                return getattr(base, attr)
            except AttributeError:
                raise OutsideFragment(f"attribute {attr} of model object {type(base).__name__}")
        if isinstance(base, SuperProxy):
            obj = base.obj
            cref = obj.cls if isinstance(obj, SymObj) else obj
            if cref is None:
                return Opaque("super." + attr)
            chain = ri.mro(cref.mod, cref.node)
            names = [(m.name, c.name) for m, c in chain]
            key = (base.owner[0].name, base.owner[1].name)
            start = names.index(key) + 1 if key in names else 0
            for m, c in chain[start:]:
                for st in c.body:
                    if isinstance(st, ast.FunctionDef) and st.name == attr:
                        decos = ri.decorators(st)
                        if "staticmethod" in decos:
                            return FuncRef(m, st, qual=f"{c.name}.{attr}", owner=(m, c))
                        return FuncRef(m, st, bound_self=obj, qual=f"{c.name}.{attr}", owner=(m, c))
            return Opaque("super." + attr)
        if isinstance(base, SymObj):
            if attr in base.attrs:
                return base.attrs[attr]
            if base.cls is not None:
                hit = ri.class_member(base.cls.mod, base.cls.node, attr)
                if hit is not None:
                    m, c, nd = hit
                    if isinstance(nd, ast.FunctionDef):
                        decos = ri.decorators(nd)
                        fr = FuncRef(m, nd, bound_self=base, qual=f"{c.name}.{attr}", owner=(m, c))
                        if any(d in ("property", "cached_property", "functools.cached_property") or d.endswith("abstractproperty") for d in decos):
                            return self.apply(fr, [], {})
                        if "staticmethod" in decos:
                            return FuncRef(m, nd, qual=f"{c.name}.{attr}", owner=(m, c))
                        if "classmethod" in decos:
                            return FuncRef(m, nd, bound_self=base.cls, qual=f"{c.name}.{attr}", owner=(m, c))
                        return fr
                    if isinstance(nd, (ast.Assign, ast.AnnAssign)):
                        return self.eval(nd.value, Env(m))
                # the class's own __getattr__ fallback (delegating wrappers); an AttributeError it raises is "unknown"
                if not (attr.startswith("__") and attr.endswith("__")):
                    ga = ri.class_member(base.cls.mod, base.cls.node, "__getattr__")
                    busy = self.__dict__.setdefault("_getattr_busy", set())
                    if ga is not None and isinstance(ga[2], ast.FunctionDef) and (id(base), attr) not in busy:
                        busy.add((id(base), attr))
                        try:
                            return self.apply(FuncRef(ga[0], ga[2], bound_self=base, qual=f"{ga[1].name}.__getattr__", owner=(ga[0], ga[1])), [attr], {})
                        except KpeRaise:
                            pass
                        finally:
                            busy.discard((id(base), attr))
            raise OutsideFragment(f"attribute {attr} of {base!r} unknown")
        if isinstance(base, ClassRef):
            hit = ri.class_member(base.mod, base.node, attr)
            if hit is not None:
                m, c, nd = hit
                if isinstance(nd, ast.FunctionDef):
                    decos = ri.decorators(nd)
                    if "classmethod" in decos:
                        return FuncRef(m, nd, bound_self=base, qual=f"{c.name}.{attr}", owner=(m, c))
                    return FuncRef(m, nd, qual=f"{c.name}.{attr}", owner=(m, c))
                return self.eval(nd.value, Env(m))
            raise OutsideFragment(f"class attribute {base.node.name}.{attr} unknown")
        if isinstance(base, Opaque):
            return Opaque(base.name + "." + attr)
        if isinstance(base, (list, tuple, dict, str, set)):
            if not hasattr(type(base), attr) and not (isinstance(base, tuple) and base and isinstance(base[0], str) and base[0] in ("np", "builtin", "math", "method", "override")):
                raise OutsideFragment(f"attribute {attr} of {type(base).__name__} unknown")
            return ("method", base, attr)
        if isinstance(base, sp.Basic) or isinstance(base, (int, Fraction)):
            if attr == "real":
                return sp.re(S(base))
            if attr == "imag":
                return sp.im(S(base))
            if attr in ("conjugate", "conj", "item", "copy"):
                return ("method", S(base), attr)
            if attr in ("shape",):
                return ()
        if isinstance(base, tuple) and base and base[0] == "np":
            return ("np", base[1] + "." + attr)
        if isinstance(base, tuple) and base and base[0] == "builtin" and base[1] == "list" and attr == "empty_list":
            return lambda *a, **k: []
        if isinstance(base, tuple) and base and base[0] == "builtin" and base[1] == "dict" and attr == "empty":
            return lambda *a, **k: {}
        if isinstance(base, slice) and attr in ("start", "stop", "step"):
            return getattr(base, attr)
        raise OutsideFragment(f"attribute {attr} of {type(base).__name__}")

    def e_Call(self, node, env):
        fn = self.eval(node.func, env)
        args = []
        for a in node.args:
            if isinstance(a, ast.Starred):
                args.extend(self.iterate(self.eval(a.value, env)))
            else:
                args.append(self.eval(a, env))
        kwargs = {}
        for k in node.keywords:
            if k.arg is None:
                kwargs.update(self.eval(k.value, env))
            else:
                kwargs[k.arg] = self.eval(k.value, env)
        if isinstance(fn, tuple) and fn and fn[0] == "builtin" and fn[1] == "super":
            try:
                owner = env.lookup("__class__")
            except KeyError:
                return Opaque("super")
            e = env
            first = None
            while e is not None and first is None:
                for k, v in e.vars.items():
                    if k in ("self", "cls"):
                        first = v
                        break
                e = e.parent
            if isinstance(first, (SymObj, ClassRef)) and isinstance(owner, tuple):
                return SuperProxy(first, owner)
            return Opaque("super")
        return self.apply(fn, args, kwargs)

    def e_NamedExpr(self, node, env):
        v = self.eval(node.value, env)
        self.assign(node.target, v, env)
        return v

    def e_Starred(self, node, env):
        raise OutsideFragment("starred expression")

    def e_Slice(self, node, env):
        return self.eval_index(node, env)

    # ------------------------------------------------------------------ library shims
    def builtin(self, name, args, kw):
        if name == "range":
            return range(*[as_int(a, "range bound") for a in args])
        if name == "get_num_threads":
            return int(getattr(self, "n_threads", 1))
        if name == "get_thread_id":
            f = getattr(self, "thread_id_fn", None)
            return int(f()) if f is not None else 0
        if name == "len":
            a = args[0]
            if isinstance(a, np.ndarray):
                return int(a.shape[0])
            return len(a)
        if name == "abs":
            return self._abs(args[0])
        if name == "float":
            return S(args[0]) if not isinstance(args[0], str) else (sp.oo if "inf" in args[0] else S(float(args[0])))
        if name == "int":
            v = args[0]
            if is_static_int(v):
                return as_int(v)
            sv = S(v)
            if sv.is_number:
                return int(sv)  # truncation toward zero like Python
            return sp.Function("int")(sv)
        if name == "complex":
            if len(args) == 2:
                return S(args[0]) + sp.I * S(args[1])
            return S(args[0])
        if name == "bool":
            tv = self.truth(args[0])
            return args[0] if tv is None else tv
        if name in ("max", "min"):
            items = list(self.iterate(args[0])) if len(args) == 1 else list(args)
            if kw.get("key") is not None:
                keys = [S(self.apply(kw["key"], [x], {})) for x in items]
                if not all(k.is_number and k.is_real for k in keys):
                    raise OutsideFragment(f"{name}(..., key=) over data-dependent keys")
                pick = (max if name == "max" else min)(range(len(items)), key=lambda i: keys[i])
                return items[pick]
            if all(is_static_int(x) and not isinstance(x, sp.Basic) for x in items):
                return (max if name == "max" else min)(int(x) for x in items)
            f = sp.Max if name == "max" else sp.Min
            return f(*[S(x) for x in items])
        if name == "sum":
            items = self.iterate(args[0])
            start = args[1] if len(args) > 1 else 0
            tot = start
            for x in items:
                tot = self.binop(ast.Add, tot, x)
            return tot
        if name == "tuple":
            return tuple(self.iterate(args[0])) if args else ()
        if name == "list":
            return list(self.iterate(args[0])) if args else []
        if name == "set":
            return set(_hash(x) for x in self.iterate(args[0])) if args else set()
        if name == "dict":
            d = dict(kw)
            if args:
                d.update(args[0])
            return d
        if name == "enumerate":
            start = as_int(args[1]) if len(args) > 1 else as_int(kw.get("start", 0))
            return [(i + start, x) for i, x in enumerate(self.iterate(args[0]))]
        if name == "zip":
            return list(zip(*[self.iterate(a) for a in args]))
        if name == "reversed":
            return list(reversed(self.iterate(args[0])))
        if name == "sorted":
            items = list(self.iterate(args[0]))
            keyf = kw.get("key")
            keys = [S(self.apply(keyf, [x], {})) if keyf is not None else x for x in items]
            if not all(isinstance(k, (int, float, str, tuple)) or (isinstance(k, sp.Basic) and k.is_number and k.is_real) for k in keys):
                raise OutsideFragment("sorted() over data-dependent keys")
            order = sorted(range(len(items)), key=lambda i: keys[i], reverse=bool(kw.get("reverse", False)))
            return [items[i] for i in order]
        if name == "isinstance":
            return self.isinstance(args[0], args[1])
        if name == "round":
            return sp.Function("round")(*[S(a) for a in args])
        if name == "pow":
            return self.scalar_binop(ast.Pow, args[0], args[1])
        if name == "print":
            return None
        if name == "str":
            return "<str>"
        if name == "divmod":
            a, b = as_int(args[0]), as_int(args[1])
            return divmod(a, b)
        if name == "slice":
            return slice(*[None if a is None else as_int(a) for a in args])
        if name == "callable":
            return isinstance(args[0], (FuncRef, UFunc, ClassRef)) or (isinstance(args[0], tuple) and args[0][:1] in (("builtin",), ("np",)))
        if name == "getattr":
            try:
                return self.getattr(args[0], args[1])
            except OutsideFragment:
                if len(args) > 2:
                    return args[2]
                raise
        if name == "hasattr":
            try:
                self.getattr(args[0], args[1])
                return True
            except OutsideFragment:
                return False
        if name in ("any", "all"):
            vals = [self.truth(x) for x in self.iterate(args[0])]
            if any(v is None for v in vals):
                raise OutsideFragment("any/all over data-dependent values")
            return any(vals) if name == "any" else all(vals)
        if name == "id":
            return id(args[0])
        if name == "hash":
            def unhashable(v):
                if isinstance(v, (dict, list, set, np.ndarray)):
                    return True
                if isinstance(v, tuple):
                    return any(unhashable(x) for x in v)
                return False
            if unhashable(args[0]):
                raise KpeRaise("TypeError: unhashable type")
            return 0
        if name == "type":
            # type(obj): a model object may carry its own constructor ("__class__" attribute: a callable or a ClassRef); real instances give their class
            if len(args) == 1 and isinstance(args[0], SymObj):
                if "__class__" in args[0].attrs:
                    return args[0].attrs["__class__"]
                if args[0].cls is not None:
                    return args[0].cls
            return Opaque("type")
        if name in ("ValueError", "RuntimeError", "TypeError", "NotImplementedError", "Exception", "ZeroDivisionError",
                    "KeyError", "IndexError"):
            return Opaque(name)
        raise OutsideFragment(f"builtin {name}")

    def isinstance(self, v, cls):
        hook = getattr(self, "isinstance_hook", None)
        if hook is not None:
            r = hook(v, cls)
            if r is not None:
                return r
        if isinstance(cls, tuple) and not (cls and isinstance(cls[0], str)):
            classes = cls
        else:
            classes = (cls,)
        for c in classes:
            if isinstance(c, tuple) and c[:1] == ("builtin",):
                n = c[1]
                if n in ("int",) and is_static_int(v):
                    return True
                if n == "float" and isinstance(v, sp.Basic) and not isinstance(v, sp.Integer):
                    return True
                if n in ("list",) and isinstance(v, list):
                    return True
                if n in ("tuple",) and isinstance(v, tuple):
                    return True
                if n == "dict" and isinstance(v, dict):
                    return True
                if n == "str" and isinstance(v, str):
                    return True
                if n == "slice" and isinstance(v, slice):
                    return True
                if n == "bool" and isinstance(v, bool):
                    return True
                if n == "complex" and isinstance(v, sp.Basic) and v.has(sp.I):
                    return True
            elif isinstance(c, tuple) and c[:1] == ("np",):
                if c[1] == "ndarray" and isinstance(v, np.ndarray):
                    return True
            elif isinstance(c, ClassRef) and isinstance(v, SymObj) and v.cls is not None:
                for m, cc in ri.mro(v.cls.mod, v.cls.node):
                    if cc.name == c.node.name and m.name == c.mod.name:
                        return True
        return False

    def _abs(self, v):
        if isinstance(v, np.ndarray):
            return vmap(sp.Abs, v)
        if is_static_int(v) and not isinstance(v, sp.Basic):
            return abs(int(v))
        return sp.Abs(S(v))

    def math_call(self, name, args, kw):
        a = [S(x) if not isinstance(x, np.ndarray) else x for x in args]
        table = {"sqrt": sp.sqrt, "sin": sp.sin, "cos": sp.cos, "tan": sp.tan, "exp": sp.exp, "log": sp.log,
                 "atan2": sp.atan2, "fabs": sp.Abs, "floor": sp.floor, "ceil": sp.ceiling, "atan": sp.atan,
                 "asin": sp.asin, "acos": sp.acos, "sinh": sp.sinh, "cosh": sp.cosh, "hypot": lambda x, y: sp.sqrt(x * x + y * y),
                 "isfinite": lambda x: True if x.is_number and x.is_finite else sp.Function("isfinite")(x),
                 "isnan": lambda x: False if x.is_number else sp.Function("isnan")(x),
                 "copysign": lambda x, y: sp.Abs(x) * sp.sign(y), "pow": sp.Pow,
                 "phase": sp.arg}
        if name == "factorial":
            return math.factorial(as_int(args[0]))
        if name == "comb":
            return math.comb(as_int(args[0]), as_int(args[1]))
        if name == "isclose":
            return sp.Function("isclose")(*a)
        if name in table:
            r = table[name](*a)
            if name in ("floor", "ceil") and isinstance(r, sp.Integer):
                return int(r)
            return r
        raise OutsideFragment(f"math.{name}")

    def np_call(self, name, args, kw):
        if name in self.np_overrides:
            return self.np_overrides[name](self, args, kw)
        from . import npshim
        return npshim.call(self, name, args, kw)

    def method_call(self, base, attr, args, kw):
        from . import npshim
        return npshim.method(self, base, attr, args, kw)


_MODCONST_CACHE = {}


def _boolish(v):
    if isinstance(v, (bool, np.bool_)):
        return True
    if isinstance(v, sp.Basic):
        return _is_boolterm(v) or v in (sp.Integer(0), sp.Integer(1))
    return False


def _zero_skip_symbol(cond):
    """cond is `a != 0` for a symbol a -> a."""
    if isinstance(cond, sp.Ne):
        l, r = cond.args
        if r == 0 and isinstance(l, sp.Symbol):
            return l
        if l == 0 and isinstance(r, sp.Symbol):
            return r
    return None


def _is_boolterm(e):
    from sympy.logic.boolalg import BooleanFunction, BooleanAtom
    from sympy.core.relational import Relational
    return isinstance(e, (BooleanFunction, BooleanAtom, Relational))


def _load(node):
    """Copy of a Store-context target as a Load-context expression (cached on the node)."""
    cached = getattr(node, "_hv_load", None)
    if cached is not None:
        return cached
    new = ast.parse(ast.unparse(node), mode="eval").body
    try:
        node._hv_load = new
    except Exception:  # noqa: BLE001
        pass
    return new


def _has(env, name):
    try:
        env.lookup(name)
        return True
    except KeyError:
        return False


def _hash(v):
    if isinstance(v, sp.Integer):
        return int(v)
    if isinstance(v, list):
        return tuple(_hash(x) for x in v)
    if isinstance(v, tuple):
        return tuple(_hash(x) for x in v)
    return v
